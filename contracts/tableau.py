"""Class model of proof/tableaux.py Tableau for the lifecycle functions (C17; verdict part of C01; parts of C16).

State: the 10-bit flag word as 10 symbolic booleans, |history| as a symbolic integer, the options `max_steps`
and `build_timeout` as optional integers (None or int), open-branch count as a symbolic integer.
Timers are transparent context managers; `elapsed_ms()` is an arbitrary non-negative real.
`next()` is an uninterpreted choice (an entry or None) that changes nothing.
"""
from __future__ import annotations

def _new_private(model, name):
    "a private helper the model has no contract for (e.g. extracted by a refactoring): interpreted from source"
    from pyvc.interp import is_private_name
    return is_private_name(name) and name not in getattr(model, 'NO_INLINE', ())
import types
import z3
from pyvc import source
from pyvc.interp import SymVal, Outside, PyExc, Contract, BoundSource, GenList, ExcValue, Interp

FLAGS = ('TICKED', 'CLOSED', 'PREMATURE', 'FINISHED', 'TIMED_OUT', 'TRUNK_BUILT', 'TIMING_INACCURATE', 'HAS_STEP_LIMIT', 'HAS_TIME_LIMIT', 'STARTED')

def _b(x): return x if isinstance(x, z3.BoolRef) else z3.BoolVal(bool(x))

class FlagVal(SymVal):
    def __init__(self, bits): self.bits = {n: _b(bits.get(n, False)) for n in FLAGS}
    @staticmethod
    def const(*names): return FlagVal({n: True for n in names})
    @staticmethod
    def fresh(pfx): return FlagVal({n: z3.Bool(f'{pfx}.{n}') for n in FLAGS})
    @staticmethod
    def lift(x):
        if isinstance(x, FlagVal): return x
        import enum
        if isinstance(x, enum.Flag): return FlagVal({n: bool(x.value & (1 << i)) for i, n in enumerate(FLAGS)})
        raise Outside(f'not a flag: {x!r}')
    def sym_getattr(self, it, name):
        if name in FLAGS: return FlagVal.const(name)
        raise Outside(f'Flag.{name}')
    def sym_contains(self, it, x):
        x = FlagVal.lift(x)
        # `a in b` for flags: all bits of a are set in b
        return z3.And(*[z3.Implies(x.bits[n], self.bits[n]) for n in FLAGS])
    def sym_binop(self, it, op, other, reflected):
        try: o = FlagVal.lift(other)
        except Outside: return NotImplemented
        if op == 'BitOr': return FlagVal({n: z3.Or(self.bits[n], o.bits[n]) for n in FLAGS})
        if op == 'BitAnd': return FlagVal({n: z3.And(self.bits[n], o.bits[n]) for n in FLAGS})
        if op == 'BitXor': return FlagVal({n: z3.Xor(self.bits[n], o.bits[n]) for n in FLAGS})
        return NotImplemented
    def sym_unop(self, it, op):
        if op == 'Invert': return FlagVal({n: z3.Not(self.bits[n]) for n in FLAGS})
        raise Outside(op)
    def sym_truth(self, it): return z3.Or(*self.bits.values())
    def sym_compare(self, it, op, other, reflected):
        o = FlagVal.lift(other)
        eq = z3.And(*[self.bits[n] == o.bits[n] for n in FLAGS])
        if op == 'Eq': return eq
        if op == 'NotEq': return z3.Not(eq)
        raise Outside('ordering of flags')
    def has(self, name): return self.bits[name]
    def same(self, other): return z3.And(*[self.bits[n] == other.bits[n] for n in FLAGS])

class OptInt(SymVal):
    "an option value that is None or an int"
    def __init__(self, name):
        self.is_none = z3.Bool(f'{name}.is_none'); self.val = z3.Int(f'{name}.val')
    def sym_is(self, it, other):
        if other is None: return self.is_none
        return False
    def sym_compare(self, it, op, other, reflected):
        if other is None:
            if op == 'Eq': return self.is_none
            if op == 'NotEq': return z3.Not(self.is_none)
        if isinstance(other, (int, z3.ArithRef)) and not isinstance(other, bool):
            # comparing None with a number raises TypeError in Python
            if it.fork(self.is_none): raise PyExc(TypeError, ('NoneType compared with int',))
            a, b = (other, self.val) if reflected else (self.val, other)
            return dict(Eq=a == b, NotEq=a != b, Lt=a < b, LtE=a <= b, Gt=a > b, GtE=a >= b)[op]
        raise Outside('OptInt compare')
    def sym_truth(self, it): return z3.And(z3.Not(self.is_none), self.val != 0)

class Timer(SymVal):
    def sym_getattr(self, it, name):
        if name == 'elapsed_ms':
            def el(it):
                r = it.fresh(z3.RealSort(), 'elapsed'); it.assume(r >= 0); return r
            return Contract(el, 'StopWatch.elapsed_ms')
        raise Outside(f'StopWatch.{name}')
class Timers(SymVal):
    def sym_getattr(self, it, name):
        if name in ('build', 'trunk', 'tree', 'models'): return Timer()
        raise Outside(f'timers.{name}')

class Opts(SymVal):
    def __init__(self, vals): self.vals = vals
    def sym_getitem(self, it, k):
        if k in self.vals: return self.vals[k]
        raise PyExc(KeyError, (k,))

class Entry(SymVal):
    def __init__(self, tab): self.tab = tab
    def sym_truth(self, it): return True
    def sym_is(self, it, o): return self is o
    def sym_getattr(self, it, name):
        if name == 'rule': return RuleTok(self.tab)
        if name == 'target': return 'target'
        if name == 'duration': return Sink()
        raise Outside(f'StepEntry.{name}')
class Sink(SymVal):
    def sym_getattr(self, it, name): return Contract(lambda it, *a, **k: None, f'sink.{name}')
class RuleTok(SymVal):
    def __init__(self, tab): self.tab = tab
    def sym_getattr(self, it, name):
        if name == 'apply':
            def apply(it, target):
                # contract of Rule.apply + the tableau's AFTER_RULE_APPLY listener: one history entry, STARTED set;
                # branches/open set may change arbitrarily
                t = self.tab
                t.hist = t.hist + 1
                t.flag = FlagVal({**t.flag.bits, 'STARTED': z3.BoolVal(True)})
                t.n_open = it.fresh_int('n_open'); it.assume(t.n_open >= 0)
                t.applied += 1
            return Contract(apply, 'Rule.apply')
        raise Outside(f'Rule.{name}')

class TableauObj(SymVal):
    INLINE = ('step', 'finish', '_check_timeout', '_is_max_steps_exceeded', 'build_trunk', 'stepiter', 'build', '_result_word')
    PROPS = ('finished', 'completed', 'premature', 'valid', 'invalid', 'current_step')
    def __init__(self, pfx='t', has_argument=None, has_logic=None):
        from pytableaux.proof import Tableau
        self.cls = Tableau
        self.flag = FlagVal.fresh(f'{pfx}.flag')
        self.hist = z3.Int(f'{pfx}.hist')
        self.n_open = z3.Int(f'{pfx}.n_open')
        self.max_steps = OptInt(f'{pfx}.max_steps')
        self.build_timeout = OptInt(f'{pfx}.build_timeout')
        self.has_argument = z3.Bool(f'{pfx}.has_argument') if has_argument is None else has_argument
        self.has_logic = z3.Bool(f'{pfx}.has_logic') if has_logic is None else has_logic
        self.is_build_models = z3.Bool(f'{pfx}.is_build_models')
        self.next_some = z3.Bool(f'{pfx}.next_returns_entry')
        self.applied = 0
        self.tree_built = False
        self.stats_built = False
        self.finish_events = 0
        self.models_built = False
        self.written = []
        self.inlined = {}
        self.next_calls = 0
    def wf(self):
        return [self.hist >= 0, self.n_open >= 0]
    def snapshot(self):
        return dict(flag=FlagVal(dict(self.flag.bits)), hist=self.hist, n_open=self.n_open, applied=self.applied,
                    tree_built=self.tree_built, stats_built=self.stats_built, finish_events=self.finish_events)
    def sym_getattr(self, it, name):
        if name == 'flag': return self.flag
        if name == 'opts': return Opts(dict(max_steps=self.max_steps, build_timeout=self.build_timeout, is_build_models=self.is_build_models, auto_build_trunk=True))
        if name == 'history': return HistLen(self)
        if name == 'open': return OpenLen(self)
        if name == 'timers': return Timers()
        if name == 'argument': return ArgOpt(self.has_argument)
        if name == 'logic': return ArgOpt(self.has_logic)
        if name == 'next':
            def nxt(it):
                self.next_calls += 1
                return Entry(self) if it.fork(self.next_some) else None
            return Contract(nxt, 'Tableau.next')
        if name == 'Tree': return TreeCls(self)
        if name == '_compute_stats':
            def cs(it): self.stats_built = True; return 'stats'
            return Contract(cs, 'Tableau._compute_stats')
        if name == '_gen_models':
            def gm(it):
                # abstraction of the real generator: for each open branch it calls self._check_timeout() (interpreted
                # from source here, so a raise carries TIMED_OUT/FINISHED exactly as the real one does) and then builds
                # a model, which touches neither flag nor history.  One call stands for all iterations: a call that
                # returns normally has no effect.
                if it.fork(self.n_open > 0):
                    it.call(self.sym_getattr(it, '_check_timeout'), [], {})
                self.models_built = True
                return GenList()
            return Contract(gm, 'Tableau._gen_models')
        if name == 'emit':
            def emit(it, ev, *a):
                if getattr(ev, 'name', None) == 'AFTER_FINISH': self.finish_events += 1
            return Contract(emit, 'EventEmitter.emit', trusted=True)
        if name in ('models', 'tree', 'stats'): return getattr(self, '_' + name, None)
        for c in self.cls.__mro__:
            if name in c.__dict__:
                v = c.__dict__[name]
                if isinstance(v, property) and name in self.PROPS:
                    fi = source.of_function(v.fget); self.inlined[fi.key] = fi
                    return it.call_source(fi, v.fget, c, [self], {}, recv=self)
                if isinstance(v, types.FunctionType) and (name in self.INLINE or _new_private(self, name)):
                    fi = source.of_function(v); self.inlined[fi.key] = fi
                    return BoundSource(fi, v, c, self)
                from pyvc.interp import private_helper as _ph
                _ok, _v = _ph(it, self.cls, name, self, getattr(self, 'inlined', None))
                if _ok: return _v
                raise Outside(f'Tableau.{name} (no contract)')
        raise PyExc(AttributeError, (name,))
    def sym_setattr(self, it, name, v):
        self.written.append(name)
        if name == 'flag': self.flag = FlagVal.lift(v); return
        if name == 'tree': self.tree_built = True; self._tree = v; return
        if name in ('models', 'stats'): setattr(self, '_' + name, v); return
        raise Outside(f'write Tableau.{name}')
    def sym_truth(self, it): return True

class HistLen(SymVal):
    def __init__(self, t): self.t = t
    def sym_len(self, it): return self.t.hist
class OpenLen(SymVal):
    def __init__(self, t): self.t = t
    def sym_len(self, it): return self.t.n_open
class ArgOpt(SymVal):
    "an attribute that is None or an object"
    def __init__(self, present): self.present = present
    def sym_is(self, it, other):
        if other is None: return z3.Not(self.present)
        return False
    def sym_truth(self, it): return self.present
class TreeCls(SymVal):
    def __init__(self, t): self.t = t
    def sym_getattr(self, it, name):
        if name == 'make': return Contract(lambda it, tab: 'tree', 'Tree.make')
        raise Outside(f'Tree.{name}')

def tableau_world():
    from pyvc.world import World
    from pytableaux.tools.timing import StopWatch
    from pytableaux.errors import Emsg
    w = World()
    w.transparent.append(lambda cm: isinstance(cm, Timer))
    w.builtin_models[StopWatch] = lambda it, *a: Timer()
    def hook(it, what, args):
        if what[0] == 'getattr' and args[0] is Emsg:
            member = getattr(Emsg, what[1])
            cls = member.cls if hasattr(member, 'cls') else member.value[0]
            return Contract(lambda it, *a: ExcValue(cls, a), f'Emsg.{what[1]}')
        return NotImplemented
    w.attr_hooks.append(hook)
    w.builtin_models[frozenset] = lambda it, xs=(): frozenset() if not it.iterate(xs) else frozenset(it.iterate(xs))
    return w
