"""Class models for the tableau-rule bodies (C04, reused by C01/C02/C03/C06).

The real bodies of `_get_sdw_targets`, `_get_sd_targets`, `_get_node_targets`, `_get_constant_nodes` (and the
helper constructors `adds/group/sdwgroup/sdwnode/sdnode/swnode/snode/anode`, re-read from source and inlined)
are interpreted with

  * the node's sentence built from *opaque* operands over a free term algebra (`STerm`),
  * a symbolic node world `w` (or None for non-modal logics), `branch.new_constant()`/`new_world()` returning
    distinguished tokens, and abstract helper state (WorldIndex, NodesWorlds, NodeCount, branch.has) as
    symbolic booleans / generic elements.

The result is the *schema* of what the rule adds for every operand.  Sentence constructors (`~s`, `s | t`,
`Operator(...)`, `Quantifier(...)`, `c >> s`, `.lhs/.rhs/...`) follow their C15 contracts (free datatype).
"""
from __future__ import annotations
import operator as opr
import types, z3
from pyvc import source
from pyvc.interp import SymVal, Outside, PyExc, Contract, BoundSource, GenList, LocalDict, Interp
from pyvc.world import World

def _lang():
    from pytableaux.lang import Operator, Quantifier, Predicate
    return Operator, Quantifier, Predicate

# ------------------------------------------------------------------ term algebra

class Param(SymVal):
    def __init__(self, kind, name): self.kind, self.name = kind, name       # kind: 'const' | 'var'
    def key(self): return (self.kind, self.name)
    def __repr__(self): return self.name
    def __eq__(self, o): return isinstance(o, Param) and o.key() == self.key()
    def __hash__(self): return hash(self.key())
    def sym_compare(self, it, op, other, reflected):
        if op == 'Eq': return self == other
        if op == 'NotEq': return not (self == other)
        raise Outside('ordering of parameters')
    def sym_is(self, it, other): return self is other      # lexical items are cached, not interned: equal items need not be identical
    def sym_binop(self, it, op, other, reflected):
        # Constant.__rshift__: c >> quantified  == quantified.unquantify(c)
        if op == 'RShift' and not reflected and self.kind == 'const':
            if isinstance(other, STerm) and other.kind == 'quant': return other.unquantify(self)
            raise PyExc(TypeError, ('>> on non-quantified',))
        raise Outside(f'parameter {op}')

class STerm(SymVal):
    """sentence term.  kinds:
         atom(name)                      opaque sentence
         body(name, var)                 opaque open sentence φ(var)
         inst(name, param)               φ(param)
         op(operator, operands)
         quant(quantifier, var, body)
    """
    __slots__ = ('kind', 'a', 'b', 'c')
    def __init__(self, kind, a=None, b=None, c=None):
        self.kind, self.a, self.b, self.c = kind, a, b, c
    def key(self):
        def k(x):
            if isinstance(x, STerm): return x.key()
            if isinstance(x, Param): return x.key()
            if isinstance(x, tuple): return tuple(k(i) for i in x)
            return getattr(x, 'name', x)
        return (self.kind, k(self.a), k(self.b), k(self.c))
    def __eq__(self, o): return isinstance(o, STerm) and o.key() == self.key()
    def __hash__(self): return hash(self.key())
    def __repr__(self):
        if self.kind == 'atom': return self.a
        if self.kind == 'body': return f'{self.a}({self.b})'
        if self.kind == 'inst': return f'{self.a}({self.b})'
        if self.kind == 'op':
            sym = dict(Negation='~', Assertion='*', Conjunction='&', Disjunction='V', MaterialConditional='>', MaterialBiconditional='<',
                       Conditional='$', Biconditional='%', Possibility='P', Necessity='L')[self.a.name]
            if len(self.b) == 1: return f'{sym}{self.b[0]!r}'
            return f'({self.b[0]!r} {sym} {self.b[1]!r})'
        if self.kind == 'quant': return f'{"E" if self.a.name == "Existential" else "U"}{self.b}.{self.c!r}'
        if self.kind == 'unneg': return f'unneg[{self.a!r}]'
        return '?'
    # constructors
    @staticmethod
    def Op(o, *xs):
        if len(xs) != o.arity: raise PyExc(TypeError, (f'{o.name} arity',))
        for x in xs:
            if not isinstance(x, STerm): raise PyExc(TypeError, ('operand is not a sentence',))
        return STerm('op', o, tuple(xs))
    def neg(self):
        Operator, _, _ = _lang()
        return STerm.Op(Operator.Negation, self)
    def subst_var(self, var, param):
        if self.kind == 'body':
            return STerm('inst', self.a, param) if self.b == var else self
        if self.kind == 'op': return STerm('op', self.a, tuple(x.subst_var(var, param) for x in self.b))
        if self.kind == 'unneg': return STerm('unneg', self.a.subst_var(var, param))
        if self.kind == 'quant':
            if self.b == var: return self
            return STerm('quant', self.a, self.b, self.c.subst_var(var, param))
        return self
    def unquantify(self, c):
        assert self.kind == 'quant'
        return self.c.subst_var(self.b, c)
    # python protocol (lang/lex.py Sentence API; contracts proved in C15)
    def sym_getattr(self, it, name):
        Operator, Quantifier, _ = _lang()
        if self.kind == 'op':
            if name == 'lhs': return self.b[0]
            if name == 'rhs': return self.b[-1]
            if name == 'operands': return self.b
            if name == 'operator': return self.a
            if name in ('quantifier', 'variable', 'sentence', 'predicate'): raise PyExc(AttributeError, (name,))
        if self.kind == 'quant':
            if name == 'quantifier': return self.a
            if name == 'variable': return self.b
            if name == 'sentence': return self.c
            if name in ('operator', 'lhs', 'rhs', 'operands', 'predicate'): raise PyExc(AttributeError, (name,))
        if name == 'negate': return Contract(lambda it: self.neg(), 'Sentence.negate')
        if name == 'negative':
            def negative(it):
                if self.kind == 'op' and self.a is Operator.Negation: return self.b[0]
                if self.kind in ('atom', 'body', 'inst', 'unneg'):
                    # an opaque operand stands for ANY sentence, a negation included: negative() strips a negation it cannot see here
                    global NEGATIVE_USED
                    NEGATIVE_USED = True
                    if NEGATIVE_OF_OPAQUE == 'outside': raise Outside('negative() of an opaque sentence (it may itself be a negation)')
                    if NEGATIVE_OF_OPAQUE == 'unneg': return STerm('unneg', self)      # the operand IS a negation: what it negates
                return self.neg()
            return Contract(negative, 'Sentence.negative')
        if name == 'asserted': return Contract(lambda it: STerm.Op(Operator.Assertion, self), 'Sentence.asserted')
        if name == 'disjoin': return Contract(lambda it, o: STerm.Op(Operator.Disjunction, self, o), 'Sentence.disjoin')
        if name == 'conjoin': return Contract(lambda it, o: STerm.Op(Operator.Conjunction, self, o), 'Sentence.conjoin')
        if name == 'unquantify' and self.kind == 'quant': return Contract(lambda it, c: self.unquantify(c), 'Quantified.unquantify')
        if name in ('constants', 'variables', 'predicates', 'atomics') and self.kind in ('atom', 'op', 'quant', 'body', 'inst'):
            # opaque operands / bodies stand for sentence letters here: no parameters, no predicates of their own
            if self.kind in ('atom', 'body'): return frozenset()
            if self.kind == 'inst': return frozenset([self.b]) if name == 'constants' and isinstance(self.b, Param) and self.b.kind == 'const' else frozenset()
            if self.kind == 'quant': return self.c.sym_getattr(it, name)
            out = frozenset()
            for x in self.b: out |= x.sym_getattr(it, name)
            return out
        if self.kind in ('atom', 'body', 'inst', 'unneg'):
            raise Outside(f'attribute {name} of an opaque sentence')
        raise Outside(f'sentence attribute {name}')
    def sym_unop(self, it, op):
        Operator, _, _ = _lang()
        if op == 'Invert': return self.neg()
        if op == 'UAdd': return STerm.Op(Operator.Assertion, self)
        if op == 'USub': return self.sym_getattr(it, 'negative').fn(it)
        raise Outside(op)
    def sym_binop(self, it, op, other, reflected):
        Operator, _, _ = _lang()
        if op == 'RShift' and reflected and self.kind == 'quant':
            from pytableaux.lang import Constant
            if isinstance(other, Constant):        # a concrete constant (e.g. Constant.first()) >> quantified
                return self.unquantify(Param('const', f'k{other.index}_{other.subscript}'))
        if not isinstance(other, STerm): return NotImplemented
        a, b = (other, self) if reflected else (self, other)
        if op == 'BitOr': return STerm.Op(Operator.Disjunction, a, b)
        if op == 'BitAnd': return STerm.Op(Operator.Conjunction, a, b)
        return NotImplemented
    def sym_iter(self, it):
        if self.kind == 'op': return list(self.b)
        if self.kind == 'quant': return [self.a, self.b, self.c]
        raise Outside('iteration of an opaque sentence')
    def sym_len(self, it): return len(self.sym_iter(it))
    def sym_getitem(self, it, k):
        items = self.sym_iter(it)
        try: return tuple(items[k]) if isinstance(k, slice) else items[k]
        except IndexError as e: raise PyExc(IndexError, e.args)
    def sym_compare(self, it, op, other, reflected):
        if op == 'Eq': return self == other
        if op == 'NotEq': return not (self == other)
        raise Outside('ordering of sentences')
    def sym_is(self, it, other): return self is other      # equal sentences need not be the same object (bounded item cache)
    def sym_type(self, it):
        from pytableaux.lang import Operated, Quantified
        if self.kind == 'op': return Operated
        if self.kind == 'quant': return Quantified
        if self.kind == 'atom':
            from pytableaux.lang import Atomic
            return Atomic            # an opaque operand is used as a sentence letter
        raise Outside('type() of an opaque sentence')
    def sym_truth(self, it): return True

NEGATIVE_USED = False
NEGATIVE_OF_OPAQUE = 'neg'        # rule-schema interpretation (rulesem.schema) switches to 'outside': there an operand stands for any sentence

def Atom(n): return STerm('atom', n)
def Body(n, var): return STerm('body', n, var)

class WorldTok(SymVal):
    "a world token: 'w' (the node's world), 'w2' (a generic accessible world), 'NEW' (branch.new_world())"
    def __init__(self, name): self.name = name
    def __repr__(self): return self.name
    def __eq__(self, o): return isinstance(o, WorldTok) and o.name == self.name
    def __hash__(self): return hash(('world', self.name))
    def sym_binop(self, it, op, other, reflected):
        # arithmetic on a world number gives SOME world -- not the branch's fresh one
        return WorldTok(f'({other!r} {op} {self.name})' if reflected else f'({self.name} {op} {other!r})')
    def sym_compare(self, it, op, other, reflected):
        if op == 'Eq': return self == other
        if op == 'NotEq': return not (self == other)
        raise Outside('ordering of world tokens')
    def sym_is(self, it, other): return self == other
    def sym_isinstance(self, it, cls): return isinstance(0, cls)
    def sym_truth(self, it): raise Outside('truth of a world token (0 is falsy)')

# ------------------------------------------------------------------ nodes, targets

class NodeVal(SymVal):
    "a tableau node built by the interpreted code, or the rule's input node"
    def __init__(self, cls, props, label=None):
        self.cls, self.props, self.label = cls, dict(props), label
    def __repr__(self): return f'<{self.cls.__name__} {self.props}>'
    def key(self):
        return (self.cls.__name__, tuple(sorted((str(k), repr(v)) for k, v in self.props.items())))
    def _get(self, k):
        k = str(k.value) if hasattr(k, 'value') else k
        return self.props.get(k, KeyError)
    def sym_getitem(self, it, k):
        v = self._get(k)
        if v is KeyError:
            ks = str(k.value) if hasattr(k, 'value') else k
            if ks in ('designated', 'world'): return None      # Node.PropMap.Defaults
            raise PyExc(KeyError, (k,))
        return v
    def sym_getattr(self, it, name):
        if name == 'get':
            def get(it, k, default=None):
                v = self._get(k)
                return default if v is KeyError else v
            return Contract(get, 'Node.get')
        if name == 'worlds':
            def worlds(it):
                out = GenList()
                for k in ('world', 'world1', 'world2'):
                    v = self.props.get(k)
                    if isinstance(v, (WorldTok, int)) and not isinstance(v, bool): out.append(v)
                return out
            return Contract(worlds, 'Node.worlds')
        if name == 'pair':
            from pytableaux.proof import WorldPair
            return Contract(lambda it: PairVal(self.props['world1'], self.props['world2']), 'AccessNode.pair')
        if name == 'has':
            return Contract(lambda it, *names: all(self.props.get(n) is not None for n in names), 'Node.has')
        raise Outside(f'Node.{name}')
    def sym_iter(self, it): return list(self.props.keys())
    def sym_mapping(self, it): return {str(getattr(k, 'value', k)): v for k, v in self.props.items()}     # **node: a node is a Mapping of its properties
    def sym_getattr_keys(self): return list(self.props)
    def sym_isinstance(self, it, cls):
        return issubclass(self.cls, cls)
    def sym_is(self, it, other): return self is other
    def sym_truth(self, it): return True
    def sym_compare(self, it, op, other, reflected):
        if op == 'Eq': return self is other
        if op == 'NotEq': return self is not other
        raise Outside('ordering of nodes')
    def as_mapping(self): return dict(self.props)

class PairVal(SymVal):
    def __init__(self, w1, w2): self.w1, self.w2 = w1, w2
    def sym_iter(self, it): return [self.w1, self.w2]
    def sym_getattr(self, it, name):
        if name in ('world1', 'w1'): return self.w1
        if name in ('world2', 'w2'): return self.w2
        if name == 'reversed': return Contract(lambda it: PairVal(self.w2, self.w1), 'WorldPair.reversed')
        if name == 'tonode':
            from pytableaux.proof import AccessNode
            return Contract(lambda it: NodeVal(AccessNode, dict(world1=self.w1, world2=self.w2)), 'WorldPair.tonode')
        raise Outside(f'WorldPair.{name}')

def node_ctor(cls):
    "contract of the Node subclasses' constructor: stores the mapping (Node.__init__)"
    def ctor(it, mapping=None):
        props = {}
        if mapping is not None:
            if isinstance(mapping, NodeVal): props = mapping.as_mapping()
            elif isinstance(mapping, dict):
                for k, v in mapping.items(): props[str(k.value) if hasattr(k, 'value') else k] = v
            else: raise Outside('Node(<non-mapping>)')
        return NodeVal(cls, props)
    return ctor

class TargetVal(LocalDict):
    pass

# ------------------------------------------------------------------ branch / helper abstractions

class BranchTok(SymVal):
    """the rule's `branch` argument: fresh witnesses are tokens; membership queries are abstract booleans,
    recorded in `it.path.notes['queries']` so that skip conditions can be audited (C02 saturation)."""
    def __init__(self):
        self.queries = []
    def sym_getattr(self, it, name):
        if name == 'new_constant':
            def nc(it):
                it.path.notes.setdefault('fresh', []).append('const')
                return Param('const', 'NEW')
            return Contract(nc, 'Branch.new_constant')
        if name == 'new_world':
            def nw(it):
                it.path.notes.setdefault('fresh', []).append('world')
                return WorldTok('NEW')
            return Contract(nw, 'Branch.new_world')
        if name == 'has':
            def has(it, node):
                b = it.fresh_bool('has')
                r = it.fork(b)
                it.path.notes.setdefault('queries', []).append(('branch.has', node, r))
                return r
            return Contract(has, 'Branch.has')
        if name == 'all':
            def all_(it, nodes):
                nodes = it.iterate(nodes)
                b = it.fresh_bool('all')
                r = it.fork(b)
                it.path.notes.setdefault('queries', []).append(('branch.all', tuple(nodes), r))
                return r
            return Contract(all_, 'Branch.all')
        if name == 'find':
            def find(it, node):
                it.path.notes.setdefault('queries', []).append(('branch.find', node, None))
                return FoundNode(node)
            return Contract(find, 'Branch.find')
        if name == 'constants':
            return ConstSetTok()
        raise Outside(f'Branch.{name}')
    def sym_truth(self, it): return True
    def sym_is(self, it, other): return self is other
    def sym_compare(self, it, op, other, reflected):
        if op == 'Eq': return self is other
        if op == 'NotEq': return self is not other
        raise Outside('ordering of branches')

class FoundNode(SymVal):
    def __init__(self, pattern): self.pattern = pattern
    def sym_truth(self, it): raise Outside('truth of branch.find() result')

class ConstSetTok(SymVal):
    "branch.constants: abstract; any element taken from it is the token `existing` (a constant already on the branch)"
    def sym_truth(self, it):
        b = it.fresh_bool('has_constants')
        return b
    def sym_iter(self, it): return [Param('const', 'existing')]
    def sym_minmax(self, it, is_min, default): return Param('const', 'existing')
    def sym_len(self, it):
        n = it.fresh_int('n_constants'); it.assume(n >= 0); return n

class RuleModel(SymVal):
    "`self` inside a rule method: class attributes come from the live rule class (after the metaclasses ran)"
    INLINE = ('_get_sdw_targets', '_get_sd_targets', '_get_node_targets', '_get_constant_nodes')
    def __init__(self, rulecls, logic, helpers=None):
        self.rulecls, self.logic = rulecls, logic
        self.helpers = helpers or {}
        self.inlined = []
    def _static(self, name):
        for c in self.rulecls.__mro__:
            if name in c.__dict__: return c, c.__dict__[name]
        raise PyExc(AttributeError, (name,))
    def bound(self, name, it=None):
        c, v = self._static(name)
        if not isinstance(v, types.FunctionType): raise Outside(f'{name} is not a plain function')
        fi = source.of_function(v)
        self.inlined.append(fi)
        return BoundSource(fi, v, c, self, f'{self.rulecls.__name__}.{name}')
    def sym_getattr(self, it, name):
        Operator, Quantifier, Predicate = _lang()
        if name == 'sentence':
            return Contract(self._sentence, 'BaseSentenceRule.sentence')
        c, v = self._static(name)
        if isinstance(v, types.FunctionType):
            from pyvc.interp import is_private_name
            # the target producers, and private helpers the model has no contract for (e.g. extracted by a refactoring)
            if name in self.INLINE or (is_private_name(name) and name not in ('_apply', '_get_targets', '_branch_target_hook')): return self.bound(name)
            raise Outside(f'rule method {name} (no contract)')
        if isinstance(v, staticmethod):
            f = v.__func__
            if f is bool or f is opr.not_: return f
            raise Outside(f'staticmethod {name}={f}')
        if isinstance(v, (bool, type(None), Operator, Quantifier)) or (isinstance(v, Predicate)):
            return v
        if name == 'modal': return bool(v)
        raise Outside(f'rule attribute {name}={v!r}')
    def _sentence(self, it, node):
        """contract of BaseSentenceRule.sentence = filters.CompareSentence.sentence with compitem.negated = bool(rule.negated)
        (the filter/rule-attribute agreement is obligation C04.<L>.<Rule>.attrs; the body of
        CompareSentence.sentence is verified separately in C04.filters.*)"""
        Operator, _, _ = _lang()
        if not isinstance(node, NodeVal): raise Outside('sentence(<non-node>)')
        s = node.props.get('sentence')
        if s is None: return None
        if bool(getattr(self.rulecls, 'negated', None)):
            if isinstance(s, STerm) and s.kind == 'op' and s.a is Operator.Negation: return s.b[0]
            return None
        return s
    def sym_getitem(self, it, helpercls):
        h = self.helpers.get(helpercls)
        if h is None:
            h = self.helpers.get(getattr(helpercls, '__name__', None))
        if h is None: raise Outside(f'rule helper {getattr(helpercls, "__name__", helpercls)} has no model')
        return h
    def sym_truth(self, it): return True
    def sym_compare(self, it, op, other, reflected):
        if op == 'Eq': return self is other
        if op == 'NotEq': return self is not other
        raise Outside('ordering of rules')

# helper models used by the modal rules ---------------------------------------

class WorldIndexModel(SymVal):
    "self[WorldIndex]: [branch] -> map world -> accessible worlds; here one *generic* accessible world `w2`"
    def sym_getitem(self, it, branch):
        return _AccessMap()
    def sym_getattr(self, it, name):
        if name == 'has':
            def has(it, branch, pair):
                b = it.fresh_bool('access_has')
                r = it.fork(b)
                it.path.notes.setdefault('queries', []).append(('WorldIndex.has', pair, r))
                return r
            return Contract(has, 'WorldIndex.has')
        if name == 'intransitives':
            def intrans(it, branch, pair):
                it.path.notes.setdefault('queries', []).append(('WorldIndex.intransitives', pair, None))
                return GenList([WorldTok('w3')])
            return Contract(intrans, 'WorldIndex.intransitives')
        raise Outside(f'WorldIndex.{name}')
class _AccessMap(SymVal):
    def sym_getattr(self, it, name):
        if name == 'get':
            def get(it, w1, default=None):
                it.path.notes.setdefault('queries', []).append(('WorldIndex.get', w1, None))
                return GenList([WorldTok('w2')])
            return Contract(get, 'WorldIndex[branch].get')
        raise Outside(f'WorldIndex[branch].{name}')

class AbstractSetModel(SymVal):
    "self[NodesWorlds][branch]: membership is an abstract boolean"
    def __init__(self, label): self.label = label
    def sym_getitem(self, it, branch): return self
    def sym_contains(self, it, x):
        b = it.fresh_bool(self.label)
        r = it.fork(b)
        it.path.notes.setdefault('queries', []).append((self.label + '.contains', x, r))
        return r

class NodeCountModel(SymVal):
    def sym_getattr(self, it, name):
        if name == 'isleast':
            def isleast(it, node, branch):
                b = it.fresh_bool('isleast')
                r = it.fork(b)
                it.path.notes.setdefault('queries', []).append(('NodeCount.isleast', node, r))
                return r
            return Contract(isleast, 'NodeCount.isleast')
        raise Outside(f'NodeCount.{name}')

# ------------------------------------------------------------------ world

def make_world():
    "World with the helper constructors inlined from source and the node classes under their ctor contract"
    import pytableaux.proof as P
    from pytableaux.proof import common as C
    from pytableaux import tools as T
    Operator, Quantifier, Predicate = _lang()
    w = World()
    _sorted0 = w.builtin_models.get(sorted)
    def _sorted(it, xs, **kw):
        items = it.iterate(xs)
        # world tokens stand for unknown distinct integers: their sorted order is SOME order -- the given one is as good as any
        if items and all(isinstance(x, WorldTok) for x in items) and not kw: return list(items)
        if _sorted0 is not None: return _sorted0(it, items, **kw)
        raise Outside('sorted() of symbolic items')
    w.builtin_models[sorted] = _sorted
    w.allow_inline(P.adds, P.sdwgroup, P.sdwnode, P.sdnode, P.swnode, P.snode, P.anode, T.group)
    for cls in (C.Node, C.SentenceNode, C.SentenceWorldNode, C.SentenceDesignationNode, C.SentenceDesignationWorldNode,
                C.AccessNode, C.DesignationNode, C.WorldNode):
        w.builtin_models[cls] = node_ctor(cls)
    w.builtin_models[C.Target] = lambda it, *a, **kw: TargetVal(_merge(it, a, kw))
    w.builtin_models[P.WorldPair] = lambda it, w1, w2: PairVal(w1, w2)
    w.builtin_models[opr.not_] = lambda it, x: it.not_(it.as_bool(x))
    from collections import deque
    w.builtin_models[deque] = lambda it, xs=(): GenList(it.iterate(xs))
    # Operator / Quantifier members are callables building sentences (C15 contracts: free constructors)
    def hook(it, what, args):
        if what == ('binop', 'RShift'):
            from pytableaux.lang import Constant
            a, b = args
            if isinstance(a, Constant) and isinstance(b, STerm) and b.kind == 'quant':
                return b.unquantify(Param('const', f'{a.index}_{a.subscript}'))
            return NotImplemented
        if what[0] == 'getattr':
            (obj,) = args
            if isinstance(obj, (Operator, Quantifier)):
                nm = what[1]
                if nm == 'other': return obj.other
                if nm in type(obj).__members__: return type(obj)[nm]
                if nm in ('name', 'arity', 'index'): return getattr(obj, nm)
                raise Outside(f'{type(obj).__name__}.{nm}')
        return NotImplemented
    w.attr_hooks.append(hook)
    orig = w.call_live
    def call_live(it, f, args, kw):
        if isinstance(f, Operator):
            if len(args) == 1 and not isinstance(args[0], STerm): args = it.iterate(args[0])
            return STerm.Op(f, *args)
        if isinstance(f, Quantifier):
            if len(args) == 1: args = it.iterate(args[0])
            v, body = args
            return STerm('quant', f, v, body)
        return orig(it, f, args, kw)
    w.call_live = call_live
    return w

def _merge(it, a, kw):
    d = {}
    for x in a:
        if isinstance(x, dict): d.update(x)
        else: raise Outside('Target(<non-mapping>)')
    d.update(kw)
    return d
