#!/usr/bin/env python3
"""Developer tool: rewrite the table of DESIGN.md §11.2 from evidence/*.json (numbers measured by the checks) and the
hand-written descriptions below."""
import json, os, re
root = os.path.dirname(os.path.dirname(os.path.abspath(__file__)))
DESC = {
 'C01': ('trunk, forward exactness of every rule, identity rule, closure soundness, `_apply`; re-stated premises: freshness (C06), verdict (C17), substitution (C15), helper listeners; branch node index, `Tableau.branch` / `Branch.copy`, trunk with repeated premises', 'truth-table countermodel search for valid verdicts (every 5th argument with non-identical equal items); real-branch histories; quantified one-premise family vs small models', 'B3E + FDE biconditional rules'),
 'C02': ('backward exactness, skip-justification (saturation) incl. access rules and serial rule, fat-quantifier service, identity completeness in all orders, model-builder value, choice-only selection, helper listeners, substitution; limit-flag wrappers, event dispatch, branch node index, fork premises', 'open-branch models re-evaluated independently', 'FDE evaluator (tables)'),
 'C03': ('synthesised termination measure (57 logics), ticking, exactness + one rule per shape, no-limit sites, step loop choice-only; branch node index, fork premises', 'verdict vs truth table', '(inherited B3E/FDE)'),
 'C04': ('forward+backward exactness (operator, quantifier, modal), attrs/filters, world discipline, branching, shapes, frame closure; re-stated: substitution, helper listeners; freshness (C06)', '—', 'B3E, FDE biconditionals'),
 'C05': ('closure exactness both ways for atoms / predications / opaque sentences, arrival symmetry, no cross-world closure, model-builder value, non-identical equal constants, closure hooks; branch node index (add / copy / select / meets / search), cross-world classical literal sets', '—', '—'),
 'C06': ('freshness invariant (inductive), views, copy, `next`, semantic frame condition, witness use; `Sentence.constants` (C15), copy content', 'real append/copy histories', '— (fixed)'),
 'C07': ('every table via body interpretation + `__call__`, definitions, same-as-base, `truth_table` over call histories; value-set membership by identity, unassigned operand, the model clause of `value_of_operated`', '(enumeration on real code counted as enum)', 'FDE linear ∧/∨'),
 'C08': ('`_limit_best` loop invariant, evaluator clauses per logic asked about a non-zero world, enforce closure, `_complete_frames`; base generators, overrides reading `R`, classical completion at every world', 'whole models vs independent evaluator; identity completion', 'FDE generalisers; one-pass identity'),
 'C09': ('score functions exception-free; selection choice-only; build = steps; order-insensitivity of identity / modal / fat-quantifier rules; helper listeners; freshness (C06), `gc` frame', 'options × build/step × hash orders × premise permutations', '— (fixed)'),
 'C10': ('reflexivity chain; re-stated freshness and substitution; branch node index, identity completeness with other-world content', 'reflexivity / weakening / renaming (mixed index/subscript targets); real-branch histories', '—'),
 'C11': ('registry closure; semantic inclusion per pair; access-rule saturation per modal extension; serial saturation; world / attribute / branching clauses of inherited rules per logic', 'valid-in-base re-run in extension', '(inherited B3E/FDE)'),
 'C12': ('Polish and Standard writer functions vs reference rendering; table bijection; `argstr` / `from_argstr`; parser created per `from_argstr` call', 'round trips, argstr shapes, near-miss injectivity', '—'),
 'C13': ('ParseContext primitives, chomp invariant + variant, bound discipline, 14 reader contracts (prefix + standard) with 2 + 1 loop invariants; which store the readers use (`ParseContext.__init__`, `DefaultParser.__call__`, stateful store)', 'exhaustive strings ≤ 4/5 vs reference grammar, binding-discipline family, history, nesting; store histories', '— (fixed)'),
 'C14': ('orderitems, wrappers, order laws, hash/ident/copy, immutability, sort keys, DequeCache invariant; comparison overrides', 'pairwise value semantics; cache transparency in fresh interpreters; construction through abstract classes', '— (fixed)'),
 'C15': ('substitute / unquantify / negative / derived attributes (helpers followed, ordered-set contract) / lazy wrapper; cached attributes of substitution results (lemma `subst-attrs`)', 'structural walk incl. non-identical parameters and equal compound operands', '—'),
 'C16': ('listeners incl. fork aliasing, `Tree._build`, `_build_branches`, `_compute_stats`, `Branch.closed`, `_apply`; trunk of every logic, `Tableau.branch` / `Branch.copy`, event dispatch, flag targets', 'invariant after every step of real proofs (recorded numbers stable); tree and stats recomputed', '— (fixed)'),
 'C17': ('full lifecycle incl. relational non-interference, setters past the guard, locking', 'cut-point sweep', '—'),
 'C18': ('qset core operations with ghost position function; linked slice count', 'operation sequences on qset / linqset / Predicates; exhaustive slice family; `Predicates._hook_check` enumeration', '— (fixed)'),
 'C19': ('`_write_structure`, template binding over writer histories, node-class totality, registry, table totality', 'rendering of finished tableaux with long-lived writers and quit-flag inputs', '—'),
 'C20': ('`having`, predicate data, `flat`, `get_data` alignment, serial world covered; `flat` under adversarial set order, class-level state', 'export vs evaluator on branch models', 'LP-family anti-extension of unmentioned tuples'),
}
man = {c['property_id']: c for c in json.load(open(os.path.join(root, 'MANIFEST.json')))['checks']}
rows = ['| id | level claimed | obligations / discharged (z3 · enum · synthesis) | solver s | proved core | bounded stand-in (evaluations) | known findings |', '|---|---|---|---|---|---|---|']
for pid in sorted(DESC):
    e = json.load(open(os.path.join(root, 'evidence', f'{pid}.json')))
    cov = e['coverage']; bb = cov.get('by_backend', {})
    z = sum(v for k, v in bb.items() if k.startswith('z3') and 'synthesis' not in k); en = bb.get('enum', 0); sy = sum(v for k, v in bb.items() if 'synthesis' in k)
    ev = cov.get('evaluations')
    proved, bounded, known = DESC[pid]
    rows.append(f"| {pid} | {man[pid]['level_claimed']['category']} | {cov['obligations']} / {cov['discharged']} ({z} · {en} · {sy}) | {cov.get('solver_s', 0)} | {proved} | {bounded}{f' ({ev:,})' if ev else ''} | {known} |")
p = os.path.join(root, 'DESIGN.md'); s = open(p).read()
i = s.index('### 11.2 Status per property'); j = s.index('`level = proof` is claimed only')
head = '### 11.2 Status per property (unchanged tree, quick tier; numbers written by tools/mk_status.py from evidence/)\n\n'
s = s[:i] + head + '\n'.join(rows) + '\n\n' + s[j:]
open(p, 'w').write(s)
print('status table rewritten:', len(rows) - 2, 'rows')
