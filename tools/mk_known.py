#!/usr/bin/env python3
"""Developer tool (never run by a check): turn the replay files of the currently refuted obligations of a
property into known_findings.json entries.  Usage: tools/mk_known.py C07 'name-regex' 'what text'"""
import json, sys, glob, os, re
prop, pat, what = sys.argv[1], sys.argv[2], sys.argv[3]
root = os.path.dirname(os.path.dirname(os.path.abspath(__file__)))
kp = os.path.join(root, 'known_findings.json')
try: known = json.load(open(kp))
except FileNotFoundError: known = {'findings': [], 'fixed': []}
have = {(k['property'], k['obligation'], k.get('instance')) for k in known['findings']}
n = 0
for f in sorted(glob.glob(os.path.join(root, 'replay', prop, '*.json'))):
    d = json.load(open(f))
    if not re.search(pat, d['obligation']): continue
    inst = d.get('instance') or (d.get('input', {}) or {}).get('instance') if d.get('kind') == 'bounded' else None
    key = (prop, d['obligation'], inst)
    if key in have: continue
    e = dict(property=prop, obligation=d['obligation'], what=what)
    if d.get('all_counterexamples') is not None: e['cex'] = d['all_counterexamples']
    if inst: e['instance'] = inst
    if d.get('kind') == 'bounded': e['input'] = d.get('input')
    known['findings'].append(e); n += 1
json.dump(known, open(kp, 'w'), indent=1, sort_keys=True)
print('added', n)
