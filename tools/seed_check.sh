#!/bin/bash
# dev tool: run selected checks against a scratch worktree with a seeded change applied
# usage: tools/seed_check.sh <seed-id> <CHECK> [<CHECK>...]
seed=$1; shift
wt=$(mktemp -u /tmp/seedchk_${seed}_XXXX)
git -C /repo worktree add -q --detach $wt HEAD || exit 3
git -C $wt apply /verif/seeded/$seed/patch.diff || { git -C /repo worktree remove --force $wt; exit 3; }
for c in "$@"; do
  VERIF_REPO=$wt /verif/vf check $c 2>&1 | grep -E "^(VIOLATION|UNDECIDED|CHECKER|\[)" | cut -c1-260 | head -${SEED_HEAD:-6}
done
git -C /repo worktree remove --force $wt
