#!/bin/bash
# dev tool: run selected checks against a scratch worktree with an arbitrary patch applied (for behaviour-preserving changes)
# usage: tools/harm_check.sh <patchfile> <CHECK> [<CHECK>...]
patch=$1; shift
wt=$(mktemp -u /tmp/harmchk_XXXX)
git -C /repo worktree add -q --detach $wt HEAD || exit 3
git -C $wt apply $patch || { git -C /repo worktree remove --force $wt; exit 3; }
for c in "$@"; do
  VERIF_REPO=$wt /verif/vf check $c 2>&1 | grep -E "^(VIOLATION|UNDECIDED|CHECKER|\[)" | cut -c1-260 | head -${SEED_HEAD:-6}
done
git -C /repo worktree remove --force $wt
