#!/usr/bin/env python3
"""Developer tool: run all 20 checks against a scratch worktree with a BEHAVIOUR-PRESERVING patch applied; every check is
expected to stay quiet (exit 0; exit 2 = undecided is recorded, exit 1 = false alarm).
usage: tools/harm_eval.py <ID> <property> <dir-with-patch.diff-notes.md>   -> /verif/seeded/<ID>/{patch.diff,notes.md,meta.json}"""
import json, os, shutil, subprocess, sys, tempfile
VERIF = os.path.dirname(os.path.dirname(os.path.abspath(__file__)))
hid, prop, src = sys.argv[1:4]
dst = os.path.join(VERIF, 'seeded', hid); os.makedirs(dst, exist_ok=True)
for f in ('patch.diff', 'notes.md'):
    p = os.path.join(src, f)
    if os.path.exists(p) and os.path.abspath(p) != os.path.abspath(os.path.join(dst, f)): shutil.copy(p, os.path.join(dst, f))
def sh(cmd, **kw): return subprocess.run(cmd, shell=True, capture_output=True, text=True, **kw)
wt = tempfile.mkdtemp(prefix=f'harmwt_{hid}_', dir='/tmp'); os.rmdir(wt)
sh('git -C /repo worktree prune')
r = sh(f'git -C /repo worktree add -q --detach {wt} HEAD'); assert r.returncode == 0, r.stderr
meta = dict(id=hid, property=prop, kind='behaviour-preserving')
try:
    ra = sh(f'git -C {wt} apply {dst}/patch.diff'); meta['patch_applies'] = ra.returncode == 0
    which = [f'C{i:02d}' for i in range(1, 21)]
    res = {}
    for batch in (which[:10], which[10:]):
        procs = {c: subprocess.Popen(f'VERIF_REPO={wt} {VERIF}/vf check {c}', shell=True, stdout=subprocess.PIPE, stderr=subprocess.STDOUT, text=True) for c in batch}
        for c, p in procs.items():
            out = p.communicate()[0]
            viol = [l for l in out.splitlines() if l.startswith('VIOLATION')]
            und = [l for l in out.splitlines() if l.startswith(('UNDECIDED', 'CHECKER-FAULT'))]
            res[c] = dict(exit=p.returncode, violations=[v.split('#', 1)[-1].strip()[:160] for v in viol[:3]], undecided=[u[:160] for u in und[:3]])
    meta['checks'] = res
    meta['false_alarms'] = sorted(c for c, v in res.items() if v['exit'] == 1)
    meta['undecided'] = sorted(c for c, v in res.items() if v['exit'] in (2, 3))
finally:
    sh(f'git -C /repo worktree remove --force {wt}')
    shutil.rmtree(os.path.join('/tmp/verif_scratch_out', os.path.basename(wt)), ignore_errors=True)
json.dump(meta, open(os.path.join(dst, 'meta.json'), 'w'), indent=1)
print(json.dumps({k: meta[k] for k in ('id', 'property', 'patch_applies', 'false_alarms', 'undecided')}))
for c in meta['false_alarms'] + meta['undecided']:
    print('  ', c, res[c]['violations'][:2], res[c]['undecided'][:2])
