#!/usr/bin/env python3
"""Developer tool: (re)generate MANIFEST.json from tools/manifest_src.py"""
import json, os, sys
root = os.path.dirname(os.path.dirname(os.path.abspath(__file__)))
sys.path.insert(0, os.path.join(root, 'tools'))
import manifest_src as M
props = [json.loads(l)['id'] for l in open(os.path.join(root, 'properties.jsonl'))]
checks = []
for pid in props:
    c = M.CHECKS.get(pid)
    if not c: continue
    checks.append(dict(
        property_id=pid, quick_cmd=f'./vf check {pid} --tier quick', thorough_cmd=f'./vf check {pid} --tier thorough',
        evidence_file=f'/verif/evidence/{pid}.json', replay_cmd_template='./vf replay {path}', engine='pyvc',
        level_claimed=dict(category=c['level'], text=c['text'], design_ref=c.get('design_ref', f'DESIGN.md §5 {pid}')),
        level_note=c['note'], technique=c['technique']))
na = [dict(property_id=p, reason=M.NOT_APPLICABLE.get(p, 'check not built yet in this session; see DESIGN.md §5 for the plan')) for p in props if p not in M.CHECKS]
man = dict(version=1, setup_cmd='./vf setup',
           hooks=dict(guard='PYTABLEAUX_VERIF', enable='checks export PYTABLEAUX_VERIF=1 and import pytableaux from /repo\'s working tree (PYTHONPATH)',
                      baseline_off_cmd='cd /repo && env -u PYTABLEAUX_VERIF /venv/bin/python -m pytest -ra -q -p no:cacheprovider --timeout=900 --continue-on-collection-errors',
                      source_commits=M.HOOK_COMMITS, add_only=True),
           engines=[dict(name='pyvc', path='/verif/pyvc', serves_properties=[c['property_id'] for c in checks],
                         kind_free_text='contract-based deductive verification: sidecar contracts + ast->VC symbolic executor over the real source, z3 5.1 / cvc5 / z3 4.8 back ends; bounded stand-ins labelled as such')],
           checks=checks, not_applicable=na, notes=M.NOTES)
json.dump(man, open(os.path.join(root, 'MANIFEST.json'), 'w'), indent=1)
import jsonschema
jsonschema.validate(man, json.load(open('/root/.vp/MANIFEST.schema.json')))
print('MANIFEST.json ok:', len(checks), 'checks,', len(na), 'not_applicable')
