#!/bin/bash
# Developer tool: apply a patch to a scratch worktree of /repo, run the unedited test suite, report stable_pass tests that no longer pass.
# usage: tools/try_fix.sh <name> <patchfile>     (worktree + output under /tmp/fix_<name>, removed afterwards except the report)
set -u
name=$1; patch=$2
wt=/tmp/fix_$name
rm -rf $wt; git -C /repo worktree prune
git -C /repo worktree add -q --detach $wt HEAD || exit 3
git -C $wt apply "$patch" || { echo "patch does not apply"; git -C /repo worktree remove --force $wt; exit 3; }
( cd $wt && env -u PYTABLEAUX_VERIF /venv/bin/python -m pytest -q -p no:cacheprovider --timeout=900 --continue-on-collection-errors --junitxml=/tmp/fix_$name.xml > /tmp/fix_$name.log 2>&1 )
python3 - "$name" <<'PY'
import json, sys, xml.etree.ElementTree as ET
name = sys.argv[1]
base = set(json.load(open('/root/.vp/BASELINE.json'))['stable_pass'])
t = ET.parse(f'/tmp/fix_{name}.xml')
ok = set(); bad = set()
for tc in t.iter('testcase'):
    cid = f"{tc.get('classname')}::{tc.get('name')}"
    if any(ch.tag in ('failure', 'error') for ch in tc): bad.add(cid)
    elif not any(ch.tag == 'skipped' for ch in tc): ok.add(cid)
lost = sorted(base - ok)
print(f'[{name}] passed={len(ok)} failed={len(bad)} stable_pass_lost={len(lost)}')
for x in lost[:40]: print('  LOST', x)
open(f'/tmp/fix_{name}.report', 'w').write(json.dumps(dict(passed=len(ok), failed=sorted(bad), lost=lost), indent=1))
PY
git -C /repo worktree remove --force $wt
