#!/bin/bash
# Developer tool: run a check against a scratch copy of /repo/pytableaux with one textual replacement applied.
# usage: tools/mut.sh <relfile under pytableaux/> <old> <new> <CHECK> [tail-lines]
set -u
S=$(mktemp -d /tmp/scr.XXXXXX)
cp -r /repo/pytableaux $S/
python3 - "$S/pytableaux/$1" "$2" "$3" <<'PY' || { rm -rf $S; exit 3; }
import sys
p, old, new = sys.argv[1:4]
s = open(p).read()
if old not in s: print('pattern not found'); sys.exit(3)
open(p, 'w').write(s.replace(old, new, 1))
PY
VERIF_REPO=$S /verif/vf check $4 | grep -v '^KNOWN' | tail -${5:-3}
rm -rf $S
