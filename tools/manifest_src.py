HOOK_COMMITS = []
FIX_COMMITS = ['6787ad3', '7dba062', 'da3750e']
NOTES = 'See DESIGN.md. Exit codes of ./vf check: 0 held, 1 violation (VIOLATION line), 2 undecided, 3 checker fault.'
NOT_APPLICABLE = {}
CHECKS = {
 'C07': dict(level='proof',
   text='For all 57 logics x 8 operators: the real TruthFunction method body is symbolically executed (callee calls replaced by the callee\'s spec table) and z3 proves body == independent spec table for every value tuple; also through TruthFunction.__call__; every table is in addition enumerated on the real code. Finite domain, complete. Evidence level is "other" while the FDE-family known finding remains refuted.',
   note='Trusted: oracle spec/semantics.py (literature); model of Mval dunders; metaclass code executed at import; builtin min/max/map axioms. See evidence trusted_base.',
   technique='contract-based deductive verification: ast->VC symbolic execution of the real method bodies, z3 over a finite value sort, plus complete enumeration on the real code'),
 'C04': dict(level='proof',
   text='Every operator, quantifier and modal rule body of all 57 logics (2 300+ rule instances) is interpreted from the real source over a free sentence algebra; z3 proves forward and backward exactness against the independent spec for all component values and, for quantifier/modal rules, for every set of instance values (all domain sizes). Ground obligations: induced attributes and filters, world discipline, branching, one rule per shape; frame rules are driven through the real rules on all 512 relations over 3 worlds. Evidence level is "other" while known findings (B3E and FDE biconditional rules, serial heuristic) remain refuted.',
   note='Trusted: oracle; sentence constructors as free datatype (C15); Node ctor contract; helper abstractions; metaclass code executed at import. See evidence trusted_base.',
   technique='contract-based deductive verification: ast->schema symbolic execution of the real rule bodies, z3 finite-sort validity queries against spec tables; enumeration for frame rules'),
 'C05': dict(level='proof',
   text='For every logic the closure hooks are interpreted from source on every ordered pair of literal nodes (same world and across worlds); detected pairs must be unsatisfiable per spec, detection symmetric in arrival order, every subset of literals on which no rule fires satisfiable, and BaseModel._read_node (interpreted from source) must read one value that satisfies the subset. Complete finite case analysis.',
   note='Trusted: Branch.find contract, truth_function per spec (C07), oracle. Identity/existence literals run on the real rules (enumerated).',
   technique='contract-based deductive verification: symbolic execution of closure hooks and the model builder over literal sets, discharged against spec (finite, complete)'),
 'C06': dict(level='proof',
   text='Branch.__init__/append/copy/new_constant/new_world are symbolically executed over z3 sets and integers; the freshness invariant and whole-view postconditions are proved inductive for every pre-state and node (no history bound). CoordsItem.next is proved to be the successor in the constant order. Witness use is checked on the interpreted schema of every witness rule; a frame scan shows no outside writer of the private fields. Bounded real-history search cross-checks and replays.',
   note='Trusted: emit/listeners do not write the private fields (scanned), qset/Index copy contracts, Sentence.constants (C15), builtin set/max axioms.',
   technique='contract-based deductive verification: inductive invariant VCs from the real source, discharged by z3 (sets + linear integer arithmetic + quantifiers)'),
}
