HOOK_COMMITS = []
NOTES = 'See DESIGN.md. Exit codes of ./vf check: 0 held, 1 violation (VIOLATION line), 2 undecided, 3 checker fault.'
NOT_APPLICABLE = {}
CHECKS = {
 'C07': dict(level='proof',
   text='For all 57 logics x 8 operators: the real TruthFunction method body is symbolically executed (callee calls replaced by the callee\'s spec table) and z3 proves body == independent spec table for every value tuple; also through TruthFunction.__call__; every table is in addition enumerated on the real code. Finite domain, complete. Evidence level is "other" while the FDE-family known finding remains refuted.',
   note='Trusted: oracle spec/semantics.py (literature); model of Mval dunders; metaclass code executed at import; builtin min/max/map axioms. See evidence trusted_base.',
   technique='contract-based deductive verification: ast->VC symbolic execution of the real method bodies, z3 over a finite value sort, plus complete enumeration on the real code'),
}
