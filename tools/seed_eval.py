#!/usr/bin/env python3
"""Developer tool: confirm a seeded property-breaking change and run the checks against it.
usage: tools/seed_eval.py <SEEDID> <property> <dir-with-patch.diff-demo.py-notes.md> [--no-tests] [--checks C01,C02|all]
Writes /verif/seeded/<SEEDID>/{patch.diff,demo.py,notes.md,meta.json}."""
import json, os, shutil, subprocess, sys, tempfile, xml.etree.ElementTree as ET
VERIF = os.path.dirname(os.path.dirname(os.path.abspath(__file__)))
seed, prop, src = sys.argv[1:4]
opts = sys.argv[4:]
run_tests = '--no-tests' not in opts
checks = 'all'
for o in opts:
    if o.startswith('--checks'): checks = o.split('=', 1)[1] if '=' in o else opts[opts.index(o) + 1]
dst = os.path.join(VERIF, 'seeded', seed)
os.makedirs(dst, exist_ok=True)
for f in ('patch.diff', 'demo.py', 'notes.md'):
    p = os.path.join(src, f)
    if os.path.exists(p) and os.path.abspath(p) != os.path.abspath(os.path.join(dst, f)): shutil.copy(p, os.path.join(dst, f))
patch = os.path.join(dst, 'patch.diff')
meta = dict(seed=seed, property=prop)
try: _prev = json.load(open(os.path.join(dst, 'meta.json')))
except Exception: _prev = {}
if not run_tests and _prev.get('tests'): meta['tests'] = dict(_prev['tests'], note='suite result from the earlier evaluation of the same patch')
def sh(cmd, **kw): return subprocess.run(cmd, shell=True, capture_output=True, text=True, **kw)
wt = tempfile.mkdtemp(prefix=f'seedwt_{seed}_', dir='/tmp'); os.rmdir(wt)
sh(f'git -C /repo worktree prune')
r = sh(f'git -C /repo worktree add -q --detach {wt} HEAD')
assert r.returncode == 0, r.stderr
try:
    # demo without the change
    r0 = sh(f'cd {wt} && PYTHONPATH={wt} /venv/bin/python {dst}/demo.py', timeout=900)
    ra = sh(f'git -C {wt} apply {patch}')
    meta['patch_applies'] = ra.returncode == 0
    if ra.returncode != 0: meta['apply_error'] = ra.stderr[-300:]
    r1 = sh(f'cd {wt} && PYTHONPATH={wt} /venv/bin/python {dst}/demo.py', timeout=900)
    meta['demo'] = dict(without_change_exit=r0.returncode, with_change_exit=r1.returncode, with_change_tail=(r1.stdout + r1.stderr)[-400:])
    meta['demo_confirms'] = (r0.returncode == 0 and r1.returncode != 0)
    if run_tests and meta['patch_applies']:
        xml = f'/tmp/seedtest_{seed}.xml'
        sh(f'cd {wt} && env -u PYTABLEAUX_VERIF /venv/bin/python -m pytest -q -p no:cacheprovider --timeout=900 --continue-on-collection-errors --junitxml={xml} > /tmp/seedtest_{seed}.log 2>&1', timeout=3000)
        base = set(json.load(open('/root/.vp/BASELINE.json'))['stable_pass'])
        ok = set()
        for tc in ET.parse(xml).iter('testcase'):
            cid = f"{tc.get('classname')}::{tc.get('name')}"
            if not any(ch.tag in ('failure', 'error', 'skipped') for ch in tc): ok.add(cid)
        lost = sorted(base - ok)
        meta['tests'] = dict(passed=len(ok), stable_pass_lost=lost[:10], suite_passes=not lost)
        os.unlink(xml)
    # checks against the changed tree
    which = [f'C{i:02d}' for i in range(1, 21)] if checks == 'all' else ([] if checks == 'none' else checks.split(','))
    procs = {c: subprocess.Popen(f'VERIF_REPO={wt} {VERIF}/vf check {c}', shell=True, stdout=subprocess.PIPE, stderr=subprocess.STDOUT, text=True) for c in which}
    res = {}
    for c, p in procs.items():
        out = p.communicate()[0]
        viol = [l for l in out.splitlines() if l.startswith('VIOLATION')]
        und = [l for l in out.splitlines() if l.startswith('UNDECIDED') or l.startswith('CHECKER-FAULT')]
        res[c] = dict(exit=p.returncode, violations=len(viol), first=[v.split('#', 1)[-1].strip()[:200] for v in viol[:3]], undecided=len(und), undecided_first=[u[:160] for u in und[:2]])
    if which:
        meta['checks'] = res
        meta['caught_by'] = sorted(c for c, v in res.items() if v['exit'] == 1)
        meta['own_check_catches'] = res.get(prop, {}).get('exit') == 1
    elif _prev.get('checks'):
        for k_ in ('checks', 'caught_by', 'own_check_catches'): meta[k_] = _prev.get(k_)
finally:
    sh(f'git -C /repo worktree remove --force {wt}')
    # the checks above rewrote evidence/replay for the changed tree: evidence must describe /repo itself
json.dump(meta, open(os.path.join(dst, 'meta.json'), 'w'), indent=1)
print(json.dumps({k: meta[k] for k in ('seed', 'property', 'patch_applies', 'demo_confirms', 'caught_by', 'own_check_catches') if k in meta}), meta.get('tests', {}).get('suite_passes'))
